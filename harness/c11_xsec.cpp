// C11 harness: runs programs of CrossSection constructors / Booleans /
// transforms / warps against /repo's current sources and prints every
// intermediate CrossSection bit-exactly (IEEE-754 bit patterns, hex).
//
// stdin, one case per line:
//   CASE <id> <stmt> ; <stmt> ; ...
// statements (statement k defines register k, k = 0,1,...):
//   P <fill 0=Positive 1=EvenOdd> <nc> <n1> x y ... <n2> x y ...   coordinates as C hexfloats
//   R x0 y0 x1 y1              CrossSection(Rect)
//   CI r n                     Circle
//   B <op 0=Add 1=Subtract 2=Intersect> i j
//   BB <op> k i1 .. ik         BatchBoolean
//   TR i tx ty | RO i deg | SC i sx sy | MI i ax ay | TF i m00 m01 m10 m11 tx ty
//   ST i tol | SI i tol        SetTolerance / Simplify (history that inflates tolerance_)
//   W i kind p1 p2             Warp with one of the built-in functions below
// stdout, per register:
//   O <id> <reg> <epsbits> <areabits> <nc> <n1> xbits ybits ...
//   WI <id> <reg> <nc> ...     (only for W: the warped raw contours fed to the fill rule)
// and finally  END <id>.
#include <cinttypes>
#include <cmath>
#include <cstdio>
#include <cstdlib>
#include <cstring>
#include <iostream>
#include <sstream>
#include <string>
#include <vector>

#include "boolean2.h"
#include "manifold/cross_section.h"

using namespace manifold;

static uint64_t bits(double d) {
  uint64_t u;
  std::memcpy(&u, &d, 8);
  return u;
}

static void printPolys(const Polygons& ps) {
  std::printf(" %zu", ps.size());
  for (const auto& c : ps) {
    std::printf(" %zu", c.size());
    for (const vec2& v : c)
      std::printf(" %016" PRIx64 " %016" PRIx64, bits(v.x), bits(v.y));
  }
}

static void warpPoint(int kind, double p1, double p2, vec2& v) {
  switch (kind) {
    case 0:  // bend
      v.y += p1 * v.x * v.x;
      break;
    case 1:  // fold about x = p1: overlaps, clockwise pieces, coincident edges
      v.x = std::fabs(v.x - p1) + p1;
      break;
    case 2: {  // twist by an angle proportional to the radius
      const double r = std::sqrt(v.x * v.x + v.y * v.y);
      const double a = p1 * r;
      const double c = std::cos(a), s = std::sin(a);
      v = vec2(c * v.x - s * v.y, s * v.x + c * v.y);
      break;
    }
    case 3:  // shear wave
      v.x += p1 * std::sin(v.y * p2);
      break;
    case 4:  // snap to a grid of pitch p1: many coincident / collinear edges
      v.x = std::round(v.x / p1) * p1;
      v.y = std::round(v.y / p1) * p1;
      break;
    default:
      break;
  }
}

int main() {
  std::string line;
  while (std::getline(std::cin, line)) {
    std::istringstream in(line);
    std::string tok;
    if (!(in >> tok) || tok != "CASE") continue;
    std::string id;
    in >> id;
    std::vector<CrossSection> reg;
    bool bad = false;
    while (in >> tok && !bad) {
      if (tok == ";") continue;
      CrossSection out;
      double eps = 0;
      Polygons warped;
      bool haveWarp = false;
      auto rd = [&]() {
        std::string s;
        in >> s;
        return std::strtod(s.c_str(), nullptr);
      };
      auto ri = [&]() {
        long v = -1;
        in >> v;
        return v;
      };
      auto R = [&](long i) -> const CrossSection& {
        if (i < 0 || i >= (long)reg.size()) {
          bad = true;
          static CrossSection empty;
          return empty;
        }
        return reg[i];
      };
      if (tok == "P") {
        const long fill = ri(), nc = ri();
        Polygons ps;
        for (long c = 0; c < nc; ++c) {
          const long n = ri();
          SimplePolygon sp;
          for (long k = 0; k < n; ++k) {
            const double x = rd();
            const double y = rd();
            sp.push_back({x, y});
          }
          ps.push_back(sp);
        }
        eps = InferEps(ps, {});
        out = fill == 1 ? CrossSection::EvenOdd(ps) : CrossSection(ps);
      } else if (tok == "R") {
        const double x0 = rd(), y0 = rd(), x1 = rd(), y1 = rd();
        out = CrossSection(Rect({x0, y0}, {x1, y1}));
      } else if (tok == "CI") {
        const double r = rd();
        const long n = ri();
        out = CrossSection::Circle(r, (int)n);
      } else if (tok == "B") {
        const long op = ri(), i = ri(), j = ri();
        const CrossSection& a = R(i);
        const CrossSection& b = R(j);
        if (bad) break;
        eps = InferEps(a.ToPolygons(), b.ToPolygons());
        out = a.Boolean(b, op == 0   ? OpType::Add
                           : op == 1 ? OpType::Subtract
                                     : OpType::Intersect);
      } else if (tok == "BB") {
        const long op = ri(), k = ri();
        std::vector<CrossSection> v;
        Polygons all;
        for (long q = 0; q < k; ++q) {
          const CrossSection& a = R(ri());
          if (bad) break;
          v.push_back(a);
          const Polygons p = a.ToPolygons();
          all.insert(all.end(), p.begin(), p.end());
        }
        if (bad) break;
        eps = InferEps(all, {});
        out = CrossSection::BatchBoolean(v, op == 0   ? OpType::Add
                                            : op == 1 ? OpType::Subtract
                                                      : OpType::Intersect);
      } else if (tok == "TR") {
        const long i = ri();
        const double tx = rd(), ty = rd();
        out = R(i).Translate({tx, ty});
      } else if (tok == "RO") {
        const long i = ri();
        const double d = rd();
        out = R(i).Rotate(d);
      } else if (tok == "SC") {
        const long i = ri();
        const double sx = rd(), sy = rd();
        out = R(i).Scale({sx, sy});
      } else if (tok == "MI") {
        const long i = ri();
        const double ax = rd(), ay = rd();
        out = R(i).Mirror({ax, ay});
      } else if (tok == "TF") {
        const long i = ri();
        const double a = rd(), b = rd(), c = rd(), d = rd(), e = rd(), f = rd();
        out = R(i).Transform(mat2x3({a, b}, {c, d}, {e, f}));
      } else if (tok == "ST") {
        const long i = ri();
        const double t = rd();
        out = R(i).SetTolerance(t);
      } else if (tok == "SI") {
        const long i = ri();
        const double t = rd();
        out = R(i).Simplify(t);
      } else if (tok == "W") {
        const long i = ri(), kind = ri();
        const double p1 = rd(), p2 = rd();
        const CrossSection& a = R(i);
        if (bad) break;
        warped = a.ToPolygons();
        for (auto& c : warped)
          for (auto& v : c) warpPoint((int)kind, p1, p2, v);
        haveWarp = true;
        eps = InferEps(warped, {});
        out = a.Warp([&](vec2& v) { warpPoint((int)kind, p1, p2, v); });
      } else {
        bad = true;
        break;
      }
      if (bad) break;
      const size_t k = reg.size();
      reg.push_back(out);
      if (haveWarp) {
        std::printf("WI %s %zu", id.c_str(), k);
        printPolys(warped);
        std::printf("\n");
      }
      const Polygons ps = out.ToPolygons();
      std::printf("O %s %zu %016" PRIx64 " %016" PRIx64, id.c_str(), k, bits(eps),
                  bits(out.Area()));
      printPolys(ps);
      std::printf("\n");
    }
    std::printf("END %s %d\n", id.c_str(), bad ? 1 : 0);
    std::fflush(stdout);
  }
  return 0;
}
