// C11 harness: runs programs of CrossSection constructors / Booleans /
// transforms / warps against /repo's current sources and prints every
// intermediate CrossSection bit-exactly (IEEE-754 bit patterns, hex).
//
// stdin, one case per line:
//   CASE <id> <stmt> ; <stmt> ; ...
// statements (statement k defines register k, k = 0,1,...):
//   P <fill 0=Positive 1=EvenOdd> <nc> <n1> x y ... <n2> x y ...   coordinates as C hexfloats
//   R x0 y0 x1 y1              CrossSection(Rect)
//   CI r n                     Circle
//   B <op 0=Add 1=Subtract 2=Intersect> i j
//   BB <op> k i1 .. ik         BatchBoolean
//   TR i tx ty | RO i deg | SC i sx sy | MI i ax ay | TF i m00 m01 m10 m11 tx ty
//   ST i tol | SI i tol        SetTolerance / Simplify (history that inflates tolerance_)
//   W i kind p1 p2             Warp with one of the built-in functions below
// stdout, per register:
//   O <id> <reg> <epsbits> <areabits> <nc> <n1> xbits ybits ...
//   WI <id> <reg> <nc> ...     (only for W: the warped raw contours fed to the fill rule)
// and finally  END <id>.
#include <cinttypes>
#include <cmath>
#include <cstdio>
#include <cstdlib>
#include <cstring>
#include <iostream>
#include <sstream>
#include <string>
#include <functional>
#include <vector>

#include "boolean2.h"
#include "manifold/cross_section.h"

using namespace manifold;

static uint64_t bits(double d) {
  uint64_t u;
  std::memcpy(&u, &d, 8);
  return u;
}

static void printPolys(const Polygons& ps) {
  std::printf(" %zu", ps.size());
  for (const auto& c : ps) {
    std::printf(" %zu", c.size());
    for (const vec2& v : c)
      std::printf(" %016" PRIx64 " %016" PRIx64, bits(v.x), bits(v.y));
  }
}

static void warpPoint(int kind, double p1, double p2, vec2& v) {
  switch (kind) {
    case 0:  // bend
      v.y += p1 * v.x * v.x;
      break;
    case 1:  // fold about x = p1: overlaps, clockwise pieces, coincident edges
      v.x = std::fabs(v.x - p1) + p1;
      break;
    case 2: {  // twist by an angle proportional to the radius
      const double r = std::sqrt(v.x * v.x + v.y * v.y);
      const double a = p1 * r;
      const double c = std::cos(a), s = std::sin(a);
      v = vec2(c * v.x - s * v.y, s * v.x + c * v.y);
      break;
    }
    case 3:  // shear wave
      v.x += p1 * std::sin(v.y * p2);
      break;
    case 4:  // snap to a grid of pitch p1: many coincident / collinear edges
      v.x = std::round(v.x / p1) * p1;
      v.y = std::round(v.y / p1) * p1;
      break;
    case 5:  // integer translation (lattice preserving)
      v.x += p1;
      v.y += p2;
      break;
    case 6:  // axis swap (orientation reversing)
      v = vec2(v.y, v.x);
      break;
    case 7:  // x -> 2x
      v.x = 2.0 * v.x;
      break;
    case 8:  // unimodular integer shear
      v.x += p1 * v.y;
      break;
    case 9:  // quarter turn
      v = vec2(-v.y, v.x);
      break;
    case 10:  // mirror x -> -x (orientation reversing)
      v.x = -v.x;
      break;
    default:
      break;
  }
}

// bit-exact dump of everything observable on a CrossSection
static std::string dumpPolys(const Polygons& ps) {
  std::string o = std::to_string(ps.size());
  char buf[64];
  for (const auto& c : ps) {
    o += " " + std::to_string(c.size());
    for (const vec2& v : c) {
      std::snprintf(buf, sizeof buf, " %016" PRIx64 " %016" PRIx64, bits(v.x), bits(v.y));
      o += buf;
    }
  }
  return o;
}

// every public operation applied to a FRESH copy of `src` (a copy keeps a pending lazy
// transform pending) and to a copy of the eagerly materialised `eager`; the two must agree bit for bit
static void differential(const std::string& id, size_t k, const CrossSection& src) {
  CrossSection eager = src;
  eager.ToPolygons();  // materialise
  auto shear = [](vec2& v) { v.x += 2.0 * v.y; };
  auto shearBatch = [](VecView<vec2> pts) {
    for (vec2& v : pts) v.x += 2.0 * v.y;
  };
  char buf[128];
  struct Op {
    const char* name;
    std::function<std::string(const CrossSection&)> f;
  };
  const std::vector<Op> ops = {
      {"ToPolygons", [&](const CrossSection& c) { return dumpPolys(c.ToPolygons()); }},
      {"Area", [&](const CrossSection& c) { std::snprintf(buf, sizeof buf, "%016" PRIx64, bits(c.Area())); return std::string(buf); }},
      {"NumVert", [&](const CrossSection& c) { return std::to_string(c.NumVert()); }},
      {"NumContour", [&](const CrossSection& c) { return std::to_string(c.NumContour()); }},
      {"IsEmpty", [&](const CrossSection& c) { return std::to_string((int)c.IsEmpty()); }},
      {"Bounds", [&](const CrossSection& c) {
         const Rect r = c.Bounds();
         std::snprintf(buf, sizeof buf, "%016" PRIx64 " %016" PRIx64 " %016" PRIx64 " %016" PRIx64, bits(r.min.x), bits(r.min.y), bits(r.max.x), bits(r.max.y));
         return std::string(buf);
       }},
      {"Warp", [&](const CrossSection& c) { return dumpPolys(c.Warp(shear).ToPolygons()); }},
      {"WarpBatch", [&](const CrossSection& c) { return dumpPolys(c.WarpBatch(shearBatch).ToPolygons()); }},
      {"Simplify", [&](const CrossSection& c) { return dumpPolys(c.Simplify(0.125).ToPolygons()); }},
      {"OffsetMiter", [&](const CrossSection& c) { return dumpPolys(c.Offset(0.5, JoinType::Miter).ToPolygons()); }},
      {"OffsetRound", [&](const CrossSection& c) { return dumpPolys(c.Offset(-0.25, JoinType::Round, 2.0, 8).ToPolygons()); }},
      {"Hull", [&](const CrossSection& c) { return dumpPolys(c.Hull().ToPolygons()); }},
      {"HullBatch", [&](const CrossSection& c) { return dumpPolys(CrossSection::Hull(std::vector<CrossSection>{c, c.Translate({1.0, 0.0})}).ToPolygons()); }},
      {"Decompose", [&](const CrossSection& c) {
         std::string o;
         for (const auto& part : c.Decompose()) o += "|" + dumpPolys(part.ToPolygons());
         return o;
       }},
      {"BooleanSelf", [&](const CrossSection& c) { return dumpPolys((c + c).ToPolygons()); }},
      {"BatchBoolean", [&](const CrossSection& c) { return dumpPolys(CrossSection::BatchBoolean({c, c.Translate({1.0, 1.0})}, OpType::Add).ToPolygons()); }},
      {"TranslateThenRead", [&](const CrossSection& c) { return dumpPolys(c.Translate({3.0, -2.0}).ToPolygons()); }},
  };
  for (const auto& op : ops) {
    CrossSection lazy = src;    // fresh copy: transform still pending if it was
    CrossSection mat = eager;   // copy of the materialised object
    const std::string a = op.f(lazy);
    const std::string b = op.f(mat);
    std::printf("D %s %zu %s %d\n", id.c_str(), k, op.name, a == b ? 1 : 0);
  }
}

int main() {
  std::string line;
  while (std::getline(std::cin, line)) {
    std::istringstream in(line);
    std::string tok;
    if (!(in >> tok) || tok != "CASE") continue;
    std::string id;
    in >> id;
    std::vector<CrossSection> reg;
    bool bad = false;
    while (in >> tok && !bad) {
      if (tok == ";") continue;
      CrossSection out;
      double eps = 0;
      Polygons warped;
      bool haveWarp = false;
      auto rd = [&]() {
        std::string s;
        in >> s;
        return std::strtod(s.c_str(), nullptr);
      };
      auto ri = [&]() {
        long v = -1;
        in >> v;
        return v;
      };
      auto R = [&](long i) -> const CrossSection& {
        if (i < 0 || i >= (long)reg.size()) {
          bad = true;
          static CrossSection empty;
          return empty;
        }
        return reg[i];
      };
      if (tok == "RD") {  // force a read of register i (materialises a pending transform)
        const long i = ri();
        const CrossSection& a = R(i);
        if (bad) break;
        a.ToPolygons();
        continue;
      }
      if (tok == "DF") {  // lazy-vs-eager differential of every public operation on register i
        const long i = ri();
        const CrossSection& a = R(i);
        if (bad) break;
        differential(id, (size_t)i, a);
        continue;
      }
      if (tok == "P") {
        const long fill = ri(), nc = ri();
        Polygons ps;
        for (long c = 0; c < nc; ++c) {
          const long n = ri();
          SimplePolygon sp;
          for (long k = 0; k < n; ++k) {
            const double x = rd();
            const double y = rd();
            sp.push_back({x, y});
          }
          ps.push_back(sp);
        }
        eps = InferEps(ps, {});
        out = fill == 1 ? CrossSection::EvenOdd(ps) : CrossSection(ps);
      } else if (tok == "R") {
        const double x0 = rd(), y0 = rd(), x1 = rd(), y1 = rd();
        out = CrossSection(Rect({x0, y0}, {x1, y1}));
      } else if (tok == "CI") {
        const double r = rd();
        const long n = ri();
        out = CrossSection::Circle(r, (int)n);
      } else if (tok == "B") {
        const long op = ri(), i = ri(), j = ri();
        const CrossSection& a = R(i);
        const CrossSection& b = R(j);
        if (bad) break;
        eps = InferEps(CrossSection(a).ToPolygons(), CrossSection(b).ToPolygons());
        out = a.Boolean(b, op == 0   ? OpType::Add
                           : op == 1 ? OpType::Subtract
                                     : OpType::Intersect);
      } else if (tok == "BB") {
        const long op = ri(), k = ri();
        std::vector<CrossSection> v;
        Polygons all;
        for (long q = 0; q < k; ++q) {
          const CrossSection& a = R(ri());
          if (bad) break;
          v.push_back(a);
          const Polygons p = CrossSection(a).ToPolygons();
          all.insert(all.end(), p.begin(), p.end());
        }
        if (bad) break;
        eps = InferEps(all, {});
        out = CrossSection::BatchBoolean(v, op == 0   ? OpType::Add
                                            : op == 1 ? OpType::Subtract
                                                      : OpType::Intersect);
      } else if (tok == "TR") {
        const long i = ri();
        const double tx = rd(), ty = rd();
        out = R(i).Translate({tx, ty});
      } else if (tok == "RO") {
        const long i = ri();
        const double d = rd();
        out = R(i).Rotate(d);
      } else if (tok == "SC") {
        const long i = ri();
        const double sx = rd(), sy = rd();
        out = R(i).Scale({sx, sy});
      } else if (tok == "MI") {
        const long i = ri();
        const double ax = rd(), ay = rd();
        out = R(i).Mirror({ax, ay});
      } else if (tok == "TF") {
        const long i = ri();
        const double a = rd(), b = rd(), c = rd(), d = rd(), e = rd(), f = rd();
        out = R(i).Transform(mat2x3({a, b}, {c, d}, {e, f}));
      } else if (tok == "ST") {
        const long i = ri();
        const double t = rd();
        out = R(i).SetTolerance(t);
      } else if (tok == "SI") {
        const long i = ri();
        const double t = rd();
        out = R(i).Simplify(t);
      } else if (tok == "W") {
        const long i = ri(), kind = ri();
        const double p1 = rd(), p2 = rd();
        const CrossSection& a = R(i);
        if (bad) break;
        {
          CrossSection probe = a;  // a copy: reading it leaves a's pending transform pending
          warped = probe.ToPolygons();
        }
        for (auto& c : warped)
          for (auto& v : c) warpPoint((int)kind, p1, p2, v);
        haveWarp = true;
        eps = InferEps(warped, {});
        out = a.Warp([&](vec2& v) { warpPoint((int)kind, p1, p2, v); });
      } else {
        bad = true;
        break;
      }
      if (bad) break;
      const size_t k = reg.size();
      reg.push_back(out);
      if (haveWarp) {
        std::printf("WI %s %zu", id.c_str(), k);
        printPolys(warped);
        std::printf("\n");
      }
      // observe through a copy: the register itself keeps any pending lazy transform until a later statement uses it
      CrossSection seen = out;
      const Polygons ps = seen.ToPolygons();
      std::printf("O %s %zu %016" PRIx64 " %016" PRIx64, id.c_str(), k, bits(eps),
                  bits(seen.Area()));
      printPolys(ps);
      std::printf("\n");
    }
    std::printf("END %s %d\n", id.c_str(), bad ? 1 : 0);
    std::fflush(stdout);
  }
  return 0;
}
