// C03 harness: drives Manifold's lazy CSG evaluator through the PUBLIC API with
// the history given on stdin and prints, for every forcing call,
//   R  an exact summary of the forced solid (Status, NumTri, exact 6*64^3*volume
//      from the exported coordinates, point-in-mesh classification of the
//      lattice cell centres), and
//   S  the shape of the CSG node graph (which op nodes are cached, which
//      children vectors are shared / already replaced by their result, what
//      each live handle points to),
// in the format of extract/c03_driver.ml (the extracted Coq model).
// Private members are reached with `#define private public`; no source hook.
//
// Input:  CASE id gx0 gx1 gy0 gy1 gz0 gz1 | op | op ...
//   L ax ay az bx by bz   box with corners in 1/64 units: Cube(size).Translate(min)
//   O o n h1..hn          Manifold::BatchBoolean({h1..hn}, OpType(o))
//   B o a b               h[a].Boolean(h[b], OpType(o))          (operator + - ^)
//   TT a dx dy dz         h[a].Translate  (integers)
//   TR a rx ry rz         h[a].Rotate(90rx, 90ry, 90rz)
//   TM a sx sy sz         h[a].Scale({sx,sy,sz}), s = +-1
//   E kind code           an errored leaf (1: NaN vertex, 2: wrong faceID length) whose Status must be code
//   K o n h1..hn          kernel only: Boolean3 pairwise on the forced operands
//   C a / D a             copy / destroy a handle
//   F a k                 force: k=0 Status(), 1 NumTri(), 2 GetMeshGL64()
#include <algorithm>
#include <cmath>
#include <cstdint>
#include <cstdio>
#include <iostream>
#include <map>
#include <memory>
#include <optional>
#include <sstream>
#include <string>
#include <vector>

#define private public
#include "manifold/manifold.h"
#include "csg_tree.h"
#include "impl.h"
#include "boolean3.h"
#undef private

using namespace manifold;

struct Reg {
  std::weak_ptr<CsgNode> w;
  const CsgNode* raw;
};

static std::string i128str(__int128 v) {
  if (v == 0) return "0";
  bool neg = v < 0;
  if (neg) v = -v;
  std::string s;
  while (v > 0) {
    s.push_back('0' + (int)(v % 10));
    v /= 10;
  }
  if (neg) s.push_back('-');
  std::reverse(s.begin(), s.end());
  return s;
}

static const std::vector<std::shared_ptr<CsgNode>>* childrenOf(const CsgOpNode* n) {
  return n->impl_.impl.get();
}

struct Case {
  std::vector<std::optional<Manifold>> handles;
  std::vector<Reg> regs;

  bool alive(size_t k) const { return !regs[k].w.expired(); }

  std::string refOf(const CsgNode* p) const {
    for (size_t k = 0; k < regs.size(); k++)
      if (alive(k) && regs[k].raw == p) return "n" + std::to_string(k);
    for (size_t k = 0; k < regs.size(); k++)
      if (alive(k) && regs[k].raw->GetNodeType() != CsgNodeType::Leaf) {
        auto* o = static_cast<const CsgOpNode*>(regs[k].raw);
        if (o->cache_ && o->cache_.get() == p) return "c" + std::to_string(k);
      }
    for (size_t k = 0; k < regs.size(); k++)
      if (alive(k) && regs[k].raw->GetNodeType() != CsgNodeType::Leaf) {
        auto* o = static_cast<const CsgOpNode*>(regs[k].raw);
        auto* ch = childrenOf(o);
        if (ch->size() == 1 && (*ch)[0].get() == p) return "r" + std::to_string(k);
      }
    return "x";
  }

  std::string shape() const {
    std::ostringstream os;
    os << "H";
    for (auto& h : handles) {
      if (!h)
        os << " -";
      else
        os << " " << refOf(h->pNode_.get());
    }
    os << " N";
    for (size_t k = 0; k < regs.size(); k++) {
      if (!alive(k)) continue;
      const CsgNode* n = regs[k].raw;
      if (n->GetNodeType() == CsgNodeType::Leaf) {
        os << " " << k << ":L";
        continue;
      }
      auto* o = static_cast<const CsgOpNode*>(n);
      auto* ch = childrenOf(o);
      size_t rep = k;
      for (size_t k2 = 0; k2 < regs.size(); k2++)
        if (alive(k2) && regs[k2].raw->GetNodeType() != CsgNodeType::Leaf &&
            childrenOf(static_cast<const CsgOpNode*>(regs[k2].raw)) == ch) {
          rep = k2;
          break;
        }
      os << " " << k << ":" << (int)o->op_ << ":" << (o->cache_ ? 1 : 0) << ":"
         << rep << ":" << (ch->size() == 1 ? "E" : "R") << ":";
      for (size_t i = 0; i < ch->size(); i++) {
        if (i) os << ",";
        os << refOf((*ch)[i].get());
      }
    }
    return os.str();
  }

  void reg(const Manifold& m) {
    regs.push_back({std::weak_ptr<CsgNode>(m.pNode_), m.pNode_.get()});
  }
};

// The sample point of a cell is its centre moved by a generic offset smaller
// than 1/64: every face of every solid here lies in a plane k + f/64 (f != 32),
// so the offset never changes the classification, but it keeps the point off
// the (rational) projected triangle edges.
static const double kEx = 1.0 / 257, kEy = 1.0 / 263, kEz = 1.0 / 269;

// exact-by-margin classification of the cell centres and exact scaled volume
static std::string summary(const Manifold& m, const int g[6]) {
  std::ostringstream os;
  int status = (int)m.Status();
  size_t ntri = m.NumTri();
  MeshGL64 mesh = m.GetMeshGL64();
  const size_t np = mesh.numProp;
  const size_t nv = np ? mesh.vertProperties.size() / np : 0;
  const size_t nt = mesh.triVerts.size() / 3;
  int inexact = 0;
  std::vector<long long> q(3 * nv);
  for (size_t v = 0; v < nv; v++)
    for (int k = 0; k < 3; k++) {
      double c = mesh.vertProperties[v * np + k] * 64.0;
      long long r = llround(c);
      if (std::fabs(c - (double)r) > 1e-6) inexact = 1;
      q[3 * v + k] = r;
    }
  __int128 vol = 0;
  for (size_t t = 0; t < nt; t++) {
    const long long* a = &q[3 * mesh.triVerts[3 * t]];
    const long long* b = &q[3 * mesh.triVerts[3 * t + 1]];
    const long long* c = &q[3 * mesh.triVerts[3 * t + 2]];
    __int128 cx = (__int128)b[1] * c[2] - (__int128)b[2] * c[1];
    __int128 cy = (__int128)b[2] * c[0] - (__int128)b[0] * c[2];
    __int128 cz = (__int128)b[0] * c[1] - (__int128)b[1] * c[0];
    vol += a[0] * cx + a[1] * cy + a[2] * cz;
  }
  const int nx = g[1] - g[0], ny = g[3] - g[2], nz = g[5] - g[4];
  std::string hex = "-";
  if (nx > 0 && ny > 0 && nz > 0) {
    std::vector<char> bits((size_t)nx * ny * nz, 0);
    // per column: triangles whose projection strictly contains the centre
    std::vector<std::vector<std::pair<double, int>>> col((size_t)nx * ny);
    for (size_t t = 0; t < nt; t++) {
      const double* A = &mesh.vertProperties[mesh.triVerts[3 * t] * np];
      const double* B = &mesh.vertProperties[mesh.triVerts[3 * t + 1] * np];
      const double* C = &mesh.vertProperties[mesh.triVerts[3 * t + 2] * np];
      double minx = std::min({A[0], B[0], C[0]}), maxx = std::max({A[0], B[0], C[0]});
      double miny = std::min({A[1], B[1], C[1]}), maxy = std::max({A[1], B[1], C[1]});
      int ix0 = std::max(g[0], (int)std::floor(minx - 0.5)), ix1 = std::min(g[1] - 1, (int)std::ceil(maxx - 0.5));
      int iy0 = std::max(g[2], (int)std::floor(miny - 0.5)), iy1 = std::min(g[3] - 1, (int)std::ceil(maxy - 0.5));
      for (int iy = iy0; iy <= iy1; iy++)
        for (int ix = ix0; ix <= ix1; ix++) {
          double px = ix + 0.5 + kEx, py = iy + 0.5 + kEy;
          double o1 = (B[0] - A[0]) * (py - A[1]) - (B[1] - A[1]) * (px - A[0]);
          double o2 = (C[0] - B[0]) * (py - B[1]) - (C[1] - B[1]) * (px - B[0]);
          double o3 = (A[0] - C[0]) * (py - C[1]) - (A[1] - C[1]) * (px - C[0]);
          bool pos = o1 > 0 && o2 > 0 && o3 > 0, neg = o1 < 0 && o2 < 0 && o3 < 0;
          if (!pos && !neg) {
            bool nonneg = o1 >= 0 && o2 >= 0 && o3 >= 0, nonpos = o1 <= 0 && o2 <= 0 && o3 <= 0;
            double area = (B[0] - A[0]) * (C[1] - A[1]) - (B[1] - A[1]) * (C[0] - A[0]);
            if ((nonneg || nonpos) && area != 0) inexact = 2;  // centre on a projected edge
            continue;
          }
          double area = o1 + o2 + o3;  // twice the signed projected area
          double z = (o2 * A[2] + o3 * B[2] + o1 * C[2]) / area;
          col[(size_t)(iy - g[2]) * nx + (ix - g[0])].push_back({z, pos ? 1 : -1});
        }
    }
    for (int iy = 0; iy < ny; iy++)
      for (int ix = 0; ix < nx; ix++) {
        auto& c = col[(size_t)iy * nx + ix];
        for (int iz = 0; iz < nz; iz++) {
          double pz = g[4] + iz + 0.5 + kEz;
          int w = 0;
          for (auto& e : c)
            if (e.first > pz) w += e.second;
          if (w != 0) bits[((size_t)iz * ny + iy) * nx + ix] = 1;
        }
      }
    hex.clear();
    const size_t n = bits.size();
    for (size_t i = 0; i < n; i += 4) {
      int v = 0;
      for (int k = 0; k < 4; k++) v = v * 2 + ((i + k < n && bits[i + k]) ? 1 : 0);
      hex.push_back("0123456789abcdef"[v]);
    }
  }
  os << status << " " << ntri << " " << i128str(vol) << " " << inexact << " " << hex;
  return os.str();
}

static void runCase(const std::vector<std::string>& tok) {
  const std::string id = tok.size() > 1 ? tok[1] : "?";
  int g[6] = {0, 0, 0, 0, 0, 0};
  size_t p = 2;
  for (int k = 0; k < 6 && p < tok.size(); k++, p++) g[k] = atoi(tok[p].c_str());
  std::vector<std::vector<std::string>> ops;
  for (; p < tok.size(); p++) {
    if (tok[p] == "|")
      ops.emplace_back();
    else if (!ops.empty())
      ops.back().push_back(tok[p]);
  }
  Case cs;
  size_t j = 0;
  try {
    for (j = 0; j < ops.size(); j++) {
      auto& op = ops[j];
      if (op.empty()) continue;
      auto I = [&](size_t k) { return atoi(op.at(k).c_str()); };
      auto H = [&](size_t k) -> Manifold& {
        int a = I(k);
        if (a < 0 || (size_t)a >= cs.handles.size() || !cs.handles[a]) throw std::out_of_range("bad-handle");
        return *cs.handles[a];
      };
      const std::string& c = op[0];
      if (c == "L") {
        double ax = I(1) / 64.0, ay = I(2) / 64.0, az = I(3) / 64.0;
        double bx = I(4) / 64.0, by = I(5) / 64.0, bz = I(6) / 64.0;
        cs.handles.emplace_back(Manifold::Cube({bx - ax, by - ay, bz - az}).Translate({ax, ay, az}));
        cs.reg(*cs.handles.back());
      } else if (c == "O") {
        int n = I(2);
        Manifold r;
        {
          std::vector<Manifold> v;
          for (int k = 0; k < n; k++) v.push_back(H(3 + k));
          r = Manifold::BatchBoolean(v, (OpType)I(1));
        }
        cs.handles.emplace_back(std::move(r));
        if (n != 1) cs.reg(*cs.handles.back());
      } else if (c == "E") {
        // an errored leaf: kind 1 = a cube mesh with a NaN vertex (NonFiniteVertex), kind 2 = a cube mesh whose faceID
        // vector has the wrong length (FaceIDWrongLength); the expected Status code is given and verified
        MeshGL mg = Manifold::Cube({1.0, 1.0, 1.0}).GetMeshGL();
        if (I(1) == 1)
          mg.vertProperties[0] = NAN;
        else {
          mg.faceID.assign(mg.triVerts.size() / 3, 0);
          mg.triVerts.resize(mg.triVerts.size() - 3);
        }
        cs.handles.emplace_back(Manifold(mg));
        if ((int)cs.handles.back()->Status() != I(2)) throw std::runtime_error("errored leaf has another status");
        cs.reg(*cs.handles.back());
      } else if (c == "K") {
        // kernel only: Boolean3 applied pairwise, left to right, on the forced
        // operands - no CsgOpNode is involved (used to tell a Boolean-kernel
        // defect from an evaluator defect)
        int n = I(2);
        OpType ot = (OpType)I(1);
        if (n < 1) throw std::runtime_error("K needs operands");
        std::shared_ptr<const Manifold::Impl> acc = H(3).GetCsgLeafNode().GetImpl();
        for (int k = 1; k < n; k++) {
          std::shared_ptr<const Manifold::Impl> b = H(3 + k).GetCsgLeafNode().GetImpl();
          acc = std::make_shared<const Manifold::Impl>(Boolean3(*acc, *b, ot, nullptr).Result(ot));
        }
        cs.handles.emplace_back(Manifold(std::make_shared<CsgLeafNode>(acc)));
        cs.reg(*cs.handles.back());
      } else if (c == "B") {
        Manifold& a = H(2);
        Manifold& b = H(3);
        cs.handles.emplace_back(a.Boolean(b, (OpType)I(1)));
        cs.reg(*cs.handles.back());
      } else if (c == "TT") {
        cs.handles.emplace_back(H(1).Translate({(double)I(2), (double)I(3), (double)I(4)}));
        cs.reg(*cs.handles.back());
      } else if (c == "TR") {
        cs.handles.emplace_back(H(1).Rotate(90.0 * I(2), 90.0 * I(3), 90.0 * I(4)));
        cs.reg(*cs.handles.back());
      } else if (c == "TM") {
        cs.handles.emplace_back(H(1).Scale({(double)I(2), (double)I(3), (double)I(4)}));
        cs.reg(*cs.handles.back());
      } else if (c == "C") {
        cs.handles.emplace_back(Manifold(H(1)));
      } else if (c == "D") {
        H(1);
        cs.handles[I(1)].reset();
      } else if (c == "F") {
        Manifold& m = H(1);
        int k = I(2);
        if (k == 0)
          (void)m.Status();
        else if (k == 1)
          (void)m.NumTri();
        else
          (void)m.GetMeshGL64();
        std::cout << "R " << id << " " << j << " " << summary(m, g) << "\n";
        std::cout << "S " << id << " " << j << " " << cs.shape() << "\n";
      } else {
        throw std::runtime_error("unknown-op");
      }
    }
  } catch (std::out_of_range& e) {
    std::cout << "X " << id << " " << j << " bad-handle\n";
  } catch (std::exception& e) {
    std::cout << "X " << id << " " << j << " exception " << e.what() << "\n";
  }
  while (!cs.handles.empty()) cs.handles.pop_back();
  std::cout << "END " << id << std::endl;
}

int main() {
  std::string line;
  while (std::getline(std::cin, line)) {
    std::istringstream is(line);
    std::vector<std::string> tok;
    std::string t;
    while (is >> t) tok.push_back(t);
    if (tok.empty()) continue;
    if (tok[0] == "PING")
      std::cout << "PONG" << std::endl;
    else if (tok[0] == "CASE")
      runCase(tok);
  }
  return 0;
}
