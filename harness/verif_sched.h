// verif_sched.h — single-threaded, seeded SCHEDULE SIMULATOR for the subset of
// the oneTBB API that elalish/manifold uses (src/parallel.h and a few library
// files).  Part of the /verif framework (properties C13 and C04).
//
// PURPOSE
//   Real TBB picks range splits, leaf order, lazy body splitting in
//   parallel_reduce, pre-scan decisions in parallel_scan and combinable slots
//   depending on timing.  This header replaces TBB by a deterministic
//   implementation that draws every such choice from ONE seeded PRNG, so the
//   library code can be run under chosen, reproducible, *legal* schedules —
//   including ones the OS scheduler rarely produces (size-1 leaves, off-centre
//   splits, every/no right child stolen, pre-scanned runs of several leaves).
//   It is single-threaded: it exercises schedule-dependent VALUES, not data
//   races (TSan / real-TBB runs do that).
//
// SUBSTITUTION (no change to /repo)
//   g++ -DMANIFOLD_PAR=1 -include /verif/harness/verif_sched.h ...   (vp.VARIANTS["sim"], link WITHOUT -ltbb)
//   The header pre-defines the include guards of the real <tbb/...> headers
//   (so later `#include <tbb/parallel_for.h>` etc. are no-ops) and then
//   `#define tbb verif_tbb`, so every `tbb::X` in the sources names the
//   simulator.  The macro VERIF_SCHED_H tells a harness the simulator is active.
//
// CONTROL (namespace verif_tbb::sched)
//   reseed(uint64_t)      restart the PRNG (call between cases / programs);
//                         the initial seed is env VERIF_SCHED_SEED (default 1)
//   concurrency (int)     what this_task_arena::max_concurrency() reports (default 4)
//   max_leaves (size_t)   cap on the leaves of one split tree (default 48)
//   enabled_log (bool)    record schedules (default true); log(), clear_log()
//
// CHOICE POINTS (all from the PRNG)
//   * range splitting (parallel_for / reduce / scan): a range may be split only
//     if blocked_range::is_divisible() (size > grainsize), as in TBB; per call
//     a mode is drawn: no split at all / random splitting / split as far as
//     allowed (down to size-1 leaves when grainsize = 1), bounded by
//     max_leaves.  Split point: the middle (what TBB does) with probability
//     1/2, otherwise any interior point.
//   * parallel_for: leaves executed in a random permutation.
//   * parallel_reduce: every internal node draws `fresh`: true = the right half
//     runs in a body made by the splitting constructor AT THE TIME OF THE RANGE
//     SPLIT, the two halves run in random order, then left.join(right);
//     false = the same body continues with the right half (lazy splitting).
//   * parallel_scan: leaves are grouped into consecutive segments; a segment is
//     either final-scanned directly by the body that already summarises
//     everything before it, or "stolen": a new body (splitting constructor)
//     pre-scans its leaves at a random earlier time, later
//     new.reverse_join(holder), the segment is final-scanned by `holder`, and
//     either body carries on; at the end body0.assign(holder) if needed.
//   * parallel_invoke / task_group: tasks run in a random permutation.
//   * combinable: 1..4 accumulators, local() picks one at random, combine_each
//     visits them in a random order.
//
// LOG (one record per construct, ordered by construct START; offsets relative
// to the range begin, so every range is [0,n)); the records are the data types
// of /verif/coq/Par/Sched.v and are checked by its extracted legal_* predicates:
//   FOR n grain TREE <tree> ORDER k i0 .. ik-1     tree ::= L | N mid <tree> <tree>
//   RED n grain TREE <rtree>                       rtree ::= L | N mid fresh <rtree> <rtree>   (fresh 0|1)
//   SCAN n grain OPS k <op>..                      op ::= S b c | P b lo hi | F b lo hi | J b a | A b a
//        (S: body c := Body(body b, split); P/F: pre/final scan of [lo,hi) by body b;
//         J: b.reverse_join(a); A: b.assign(a); body 0 is the caller's)
//   INV k ORDER i0 .. ik-1
//   COMB k NLOCAL m s0 .. sm-1 ORDER o0 .. ok-1
//   TG k ORDER i0 .. ik-1
//
// API SUBSET (namespace verif_tbb): split, blocked_range<T>, parallel_for
// (range and index forms, optional partitioner), parallel_reduce (imperative
// and lambda form), parallel_scan (imperative and lambda form),
// pre_scan_tag/final_scan_tag, parallel_invoke, combinable, task_arena,
// this_task_arena::{isolate,max_concurrency}, task_group, global_control,
// auto/simple/static/affinity_partitioner, concurrent_map,
// concurrent_unordered_map (single-threaded std:: aliases),
// enumerable_thread_specific (one slot).
#ifndef VERIF_SCHED_H
#define VERIF_SCHED_H

#define __TBB_tbb_H
#define __TBB_parallel_for_H
#define __TBB_parallel_reduce_H
#define __TBB_parallel_scan_H
#define __TBB_parallel_invoke_H
#define __TBB_parallel_for_each_H
#define __TBB_parallel_sort_H
#define __TBB_combinable_H
#define __TBB_task_arena_H
#define __TBB_task_group_H
#define __TBB_task_H
#define __TBB_info_H
#define __TBB_concurrent_map_H
#define __TBB_concurrent_unordered_map_H
#define __TBB_global_control_H
#define __TBB_blocked_range_H
#define __TBB_partitioner_H
#define __TBB_enumerable_thread_specific_H
#define __TBB_version_H

#include <algorithm>
#include <cstdint>
#include <cstdlib>
#include <deque>
#include <functional>
#include <iterator>
#include <map>
#include <memory>
#include <string>
#include <type_traits>
#include <unordered_map>
#include <utility>
#include <vector>

namespace verif_tbb {
namespace sched {
inline uint64_t& state() {
  static uint64_t s = [] {
    const char* e = std::getenv("VERIF_SCHED_SEED");
    return e ? std::strtoull(e, nullptr, 10) : 1ull;
  }();
  return s;
}
inline void reseed(uint64_t s) { state() = s; }
inline uint64_t next() {  // splitmix64
  uint64_t z = (state() += 0x9E3779B97F4A7C15ull);
  z = (z ^ (z >> 30)) * 0xBF58476D1CE4E5B9ull;
  z = (z ^ (z >> 27)) * 0x94D049BB133111EBull;
  return z ^ (z >> 31);
}
inline uint64_t below(uint64_t n) { return n ? next() % n : 0; }
inline bool coin() { return next() & 1; }
inline int concurrency = 4;
inline size_t max_leaves = 48;
inline bool enabled_log = true;
inline std::vector<std::string>& log() {
  static std::vector<std::string> l;
  return l;
}
inline void clear_log() { log().clear(); }
inline size_t reserve() {
  if (!enabled_log) return 0;
  log().emplace_back();
  return log().size() - 1;
}
inline void fill(size_t idx, const std::string& s) {
  if (enabled_log && idx < log().size()) log()[idx] = s;
}
inline std::vector<size_t> permutation(size_t k) {
  std::vector<size_t> p(k);
  for (size_t i = 0; i < k; ++i) p[i] = i;
  for (size_t i = k; i > 1; --i) std::swap(p[i - 1], p[below(i)]);
  return p;
}

struct Node {
  size_t lo, hi, mid;
  int l = -1, r = -1;
  bool fresh = false;
};
// a random split tree over [0,n); returns nodes, root = 0
struct Tree {
  std::vector<Node> nodes;
  std::vector<int> leaves;  // node indices, left to right
  size_t budget;
  int mode;  // 0 no split, 1 random, 2 as far as allowed
  size_t grain;
  int build(size_t lo, size_t hi) {
    int id = (int)nodes.size();
    nodes.push_back(Node{lo, hi, 0});
    size_t size = hi - lo;
    bool can = size > grain && size >= 2 && budget > 0;
    bool doit = can && (mode == 2 || (mode == 1 && below(100) < 70));
    if (doit) {
      --budget;
      size_t mid = coin() ? lo + size / 2 : lo + 1 + below(size - 1);
      nodes[id].mid = mid;
      nodes[id].fresh = coin();
      int l = build(lo, mid);
      int r = build(mid, hi);
      nodes[id].l = l;
      nodes[id].r = r;
    } else {
      leaves.push_back(id);
    }
    return id;
  }
  Tree(size_t n, size_t g) : budget(max_leaves ? max_leaves - 1 : 0), grain(g ? g : 1) {
    uint64_t m = below(10);
    mode = m < 2 ? 0 : (m < 8 ? 1 : 2);
    if (n > 0) build(0, n);
  }
  void print(std::string& s, int id, bool red) const {
    const Node& nd = nodes[id];
    if (nd.l < 0) {
      s += " L";
      return;
    }
    s += " N " + std::to_string(nd.mid);
    if (red) s += nd.fresh ? " 1" : " 0";
    print(s, nd.l, red);
    print(s, nd.r, red);
  }
  std::string str(bool red) const {
    std::string s;
    if (nodes.empty())
      s = " L";
    else
      print(s, 0, red);
    return s;
  }
};
}  // namespace sched

struct split {};
struct pre_scan_tag {
  static bool is_final_scan() { return false; }
  operator bool() const { return false; }
};
struct final_scan_tag {
  static bool is_final_scan() { return true; }
  operator bool() const { return true; }
};
struct auto_partitioner {};
struct simple_partitioner {};
struct static_partitioner {};
struct affinity_partitioner {};

template <typename Value>
class blocked_range {
 public:
  using const_iterator = Value;
  using size_type = std::size_t;
  blocked_range() : b_(), e_(), g_(1) {}
  blocked_range(Value b, Value e, size_type g = 1) : b_(b), e_(e), g_(g ? g : 1) {}
  blocked_range(blocked_range& r, split) : b_(r.b_ + (r.e_ - r.b_) / 2), e_(r.e_), g_(r.g_) { r.e_ = b_; }
  const_iterator begin() const { return b_; }
  const_iterator end() const { return e_; }
  size_type size() const { return size_type(e_ - b_); }
  size_type grainsize() const { return g_; }
  bool empty() const { return !(b_ < e_); }
  bool is_divisible() const { return g_ < size(); }

 private:
  Value b_, e_;
  size_type g_;
};

namespace detail {
template <typename V>
blocked_range<V> sub(const blocked_range<V>& r, size_t lo, size_t hi) {
  using D = decltype(r.end() - r.begin());
  return blocked_range<V>(r.begin() + static_cast<D>(lo), r.begin() + static_cast<D>(hi), r.grainsize());
}
}  // namespace detail

// ------------------------------------------------------------- parallel_for
template <typename V, typename Body>
void parallel_for(const blocked_range<V>& range, const Body& body) {
  size_t slot = sched::reserve();
  size_t n = range.empty() ? 0 : range.size();
  sched::Tree t(n, range.grainsize());
  std::vector<size_t> order = sched::permutation(t.leaves.size());
  std::string rec = "FOR " + std::to_string(n) + " " + std::to_string(range.grainsize()) + " TREE" + t.str(false) +
                    " ORDER " + std::to_string(order.size());
  for (size_t i : order) rec += " " + std::to_string(i);
  sched::fill(slot, rec);
  for (size_t i : order) {
    const sched::Node& nd = t.nodes[t.leaves[i]];
    body(detail::sub(range, nd.lo, nd.hi));
  }
}
template <typename V, typename Body, typename P>
void parallel_for(const blocked_range<V>& range, const Body& body, P&&) {
  parallel_for(range, body);
}
template <typename Index, typename F, typename = std::enable_if_t<std::is_integral_v<Index>>>
void parallel_for(Index first, Index last, const F& f) {
  if (!(first < last)) return;
  parallel_for(blocked_range<Index>(first, last), [&](const blocked_range<Index>& r) {
    for (Index i = r.begin(); i < r.end(); ++i) f(i);
  });
}
template <typename Index, typename F, typename = std::enable_if_t<std::is_integral_v<Index>>>
void parallel_for(Index first, Index last, Index step, const F& f) {
  if (!(first < last) || step <= 0) return;
  Index count = (last - first + step - 1) / step;
  parallel_for(blocked_range<Index>(0, count), [&](const blocked_range<Index>& r) {
    for (Index i = r.begin(); i < r.end(); ++i) f(first + i * step);
  });
}

// ---------------------------------------------------------- parallel_reduce
namespace detail {
template <typename V, typename Body>
void reduce_rec(const sched::Tree& t, int id, const blocked_range<V>& range, Body& b) {
  const sched::Node& nd = t.nodes[id];
  if (nd.l < 0) {
    b(sub(range, nd.lo, nd.hi));
    return;
  }
  if (nd.fresh) {
    Body rb(b, split{});  // at the time of the range split
    if (sched::coin()) {
      reduce_rec(t, nd.l, range, b);
      reduce_rec(t, nd.r, range, rb);
    } else {
      reduce_rec(t, nd.r, range, rb);
      reduce_rec(t, nd.l, range, b);
    }
    b.join(rb);
  } else {
    reduce_rec(t, nd.l, range, b);
    reduce_rec(t, nd.r, range, b);
  }
}
template <typename Range, typename Value, typename RealBody, typename Reduction>
struct lambda_reduce_body {
  const Value& identity;
  const RealBody& real_body;
  const Reduction& reduction;
  Value value;
  lambda_reduce_body(const Value& id, const RealBody& rb, const Reduction& rd)
      : identity(id), real_body(rb), reduction(rd), value(id) {}
  lambda_reduce_body(lambda_reduce_body& o, split)
      : identity(o.identity), real_body(o.real_body), reduction(o.reduction), value(o.identity) {}
  void operator()(const Range& r) { value = real_body(r, const_cast<const Value&>(value)); }
  void join(lambda_reduce_body& rhs) { value = reduction(const_cast<const Value&>(value), const_cast<const Value&>(rhs.value)); }
};
}  // namespace detail

template <typename V, typename Body>
void parallel_reduce(const blocked_range<V>& range, Body& body) {
  size_t slot = sched::reserve();
  size_t n = range.empty() ? 0 : range.size();
  sched::Tree t(n, range.grainsize());
  sched::fill(slot, "RED " + std::to_string(n) + " " + std::to_string(range.grainsize()) + " TREE" + t.str(true));
  if (n > 0) detail::reduce_rec(t, 0, range, body);
}
template <typename V, typename Body, typename P, typename = decltype(std::declval<Body&>().join(std::declval<Body&>()))>
void parallel_reduce(const blocked_range<V>& range, Body& body, P&&) {
  parallel_reduce(range, body);
}
template <typename V, typename Value, typename RealBody, typename Reduction>
Value parallel_reduce(const blocked_range<V>& range, const Value& identity, const RealBody& real_body,
                      const Reduction& reduction) {
  detail::lambda_reduce_body<blocked_range<V>, Value, RealBody, Reduction> body(identity, real_body, reduction);
  parallel_reduce(range, body);
  return body.value;
}
template <typename V, typename Value, typename RealBody, typename Reduction, typename P>
Value parallel_reduce(const blocked_range<V>& range, const Value& identity, const RealBody& real_body,
                      const Reduction& reduction, P&&) {
  return parallel_reduce(range, identity, real_body, reduction);
}
// deterministic variants map to the same thing
template <typename... A>
auto parallel_deterministic_reduce(A&&... a) -> decltype(parallel_reduce(std::forward<A>(a)...)) {
  return parallel_reduce(std::forward<A>(a)...);
}

// ------------------------------------------------------------ parallel_scan
namespace detail {
struct ScanOp {
  char kind;        // S P F J A
  size_t b, x, y;   // S: b=parent x=child ; P/F: b, x=lo, y=hi ; J/A: b, x=a
  size_t key;       // position in the main chain it must precede (early ops)
  size_t seq;
};
template <typename Range, typename Value, typename Scan, typename RevJoin>
struct lambda_scan_body {
  Value sum;
  const Value& identity;
  const Scan& scan;
  const RevJoin& rj;
  lambda_scan_body(const Value& id, const Scan& s, const RevJoin& r) : sum(id), identity(id), scan(s), rj(r) {}
  lambda_scan_body(lambda_scan_body& b, split) : sum(b.identity), identity(b.identity), scan(b.scan), rj(b.rj) {}
  template <typename Tag>
  void operator()(const Range& r, Tag) {
    sum = scan(r, sum, Tag::is_final_scan());
  }
  void reverse_join(lambda_scan_body& a) { sum = rj(a.sum, sum); }
  void assign(lambda_scan_body& b) { sum = b.sum; }
};
}  // namespace detail

template <typename V, typename Body>
void parallel_scan(const blocked_range<V>& range, Body& body) {
  using detail::ScanOp;
  size_t slot = sched::reserve();
  size_t n = range.empty() ? 0 : range.size();
  sched::Tree t(n, range.grainsize());
  std::vector<ScanOp> main, early, ops;
  if (n > 0) {
    // provisional body ids: 0 = caller's, 1.. = stolen segments in order of creation
    size_t nleaves = t.leaves.size();
    size_t holder = 0, nextBody = 1, li = 0;
    int style = (int)sched::below(4);  // 0 serial, 1 every segment stolen, 2/3 mixed
    bool first = true;
    while (li < nleaves) {
      size_t segLen = 1 + sched::below(std::min<size_t>(3, nleaves - li));
      bool stolen = !first && (style == 1 || (style >= 2 && sched::coin()));
      if (style == 0) stolen = false;
      if (!stolen) {
        for (size_t k = 0; k < segLen; ++k) {
          const sched::Node& nd = t.nodes[t.leaves[li + k]];
          main.push_back(ScanOp{'F', holder, nd.lo, nd.hi, 0, 0});
        }
      } else {
        size_t nb = nextBody++;
        size_t mark = main.size();  // early ops must come before main[mark]
        size_t lastKey = 0;
        std::vector<size_t> keys(segLen + 1);
        for (auto& k : keys) k = sched::below(mark + 1);
        std::sort(keys.begin(), keys.end());
        early.push_back(ScanOp{'S', 0, nb, 0, keys[0], 0});
        for (size_t k = 0; k < segLen; ++k) {
          const sched::Node& nd = t.nodes[t.leaves[li + k]];
          early.push_back(ScanOp{'P', nb, nd.lo, nd.hi, keys[k + 1], 0});
        }
        (void)lastKey;
        main.push_back(ScanOp{'J', nb, holder, 0, 0, 0});
        for (size_t k = 0; k < segLen; ++k) {
          const sched::Node& nd = t.nodes[t.leaves[li + k]];
          main.push_back(ScanOp{'F', holder, nd.lo, nd.hi, 0, 0});
        }
        if (sched::coin()) holder = nb;
      }
      first = false;
      li += segLen;
    }
    if (holder != 0) main.push_back(ScanOp{'A', 0, holder, 0, 0, 0});
    // merge: early op with key k goes before main[k]; keep relative order of early ops
    size_t ei = 0;
    std::stable_sort(early.begin(), early.end(), [](const ScanOp& a, const ScanOp& b) { return a.key < b.key; });
    for (size_t i = 0; i <= main.size(); ++i) {
      while (ei < early.size() && early[ei].key <= i) ops.push_back(early[ei++]);
      if (i < main.size()) ops.push_back(main[i]);
    }
    // renumber bodies by the order of their S op (Sched.v: child = next unused number)
    std::vector<size_t> ren(nextBody, 0);
    size_t cnt = 1;
    for (auto& o : ops)
      if (o.kind == 'S') ren[o.x] = cnt++;
    for (auto& o : ops) {
      o.b = ren[o.b];
      if (o.kind == 'S' || o.kind == 'J' || o.kind == 'A') o.x = ren[o.x];
    }
  }
  std::string rec = "SCAN " + std::to_string(n) + " " + std::to_string(range.grainsize()) + " OPS " + std::to_string(ops.size());
  for (auto& o : ops) {
    rec += std::string(" ") + o.kind + " " + std::to_string(o.b) + " " + std::to_string(o.x);
    if (o.kind == 'P' || o.kind == 'F') rec += " " + std::to_string(o.y);
  }
  sched::fill(slot, rec);
  // execute
  std::deque<Body> owned;
  std::vector<Body*> bodies{&body};
  for (auto& o : ops) {
    switch (o.kind) {
      case 'S':
        owned.emplace_back(*bodies[o.b], split{});
        bodies.push_back(&owned.back());
        break;
      case 'P':
        (*bodies[o.b])(detail::sub(range, o.x, o.y), pre_scan_tag{});
        break;
      case 'F':
        (*bodies[o.b])(detail::sub(range, o.x, o.y), final_scan_tag{});
        break;
      case 'J':
        bodies[o.b]->reverse_join(*bodies[o.x]);
        break;
      case 'A':
        bodies[o.b]->assign(*bodies[o.x]);
        break;
    }
  }
}
template <typename V, typename Body, typename P, typename = decltype(std::declval<Body&>().assign(std::declval<Body&>()))>
void parallel_scan(const blocked_range<V>& range, Body& body, P&&) {
  parallel_scan(range, body);
}
template <typename V, typename Value, typename Scan, typename RevJoin>
Value parallel_scan(const blocked_range<V>& range, const Value& identity, const Scan& scan, const RevJoin& rj) {
  detail::lambda_scan_body<blocked_range<V>, Value, Scan, RevJoin> body(identity, scan, rj);
  parallel_scan(range, body);
  return body.sum;
}

// ---------------------------------------------------------- parallel_invoke
template <typename... F>
void parallel_invoke(F&&... f) {
  size_t slot = sched::reserve();
  std::vector<std::function<void()>> tasks{std::function<void()>(std::ref(f))...};
  std::vector<size_t> order = sched::permutation(tasks.size());
  std::string rec = "INV " + std::to_string(tasks.size()) + " ORDER";
  for (size_t i : order) rec += " " + std::to_string(i);
  sched::fill(slot, rec);
  for (size_t i : order) tasks[i]();
}

// --------------------------------------------------------------- combinable
template <typename T>
class combinable {
 public:
  combinable() : k_(1 + sched::below(4)), slots_(k_) {}
  template <typename Init, typename = std::enable_if_t<!std::is_same_v<std::decay_t<Init>, combinable>>>
  explicit combinable(Init init) : init_(init), k_(1 + sched::below(4)), slots_(k_) {}
  combinable(const combinable& o) : init_(o.init_), k_(o.k_), slots_(o.k_), picks_(o.picks_) {
    for (size_t i = 0; i < k_; ++i)
      if (o.slots_[i]) slots_[i] = std::make_unique<T>(*o.slots_[i]);
  }
  combinable& operator=(const combinable& o) {
    if (this != &o) {
      combinable tmp(o);
      std::swap(init_, tmp.init_);
      std::swap(k_, tmp.k_);
      slots_.swap(tmp.slots_);
      picks_.swap(tmp.picks_);
    }
    return *this;
  }
  T& local() {
    bool e;
    return local(e);
  }
  T& local(bool& exists) {
    size_t s = sched::below(k_);
    picks_.push_back(s);
    exists = (bool)slots_[s];
    if (!slots_[s]) slots_[s].reset(init_ ? new T(init_()) : new T());  // guaranteed elision: T may be non-copyable
    return *slots_[s];
  }
  void clear() {
    for (auto& s : slots_) s.reset();
    picks_.clear();
  }
  template <typename F>
  void combine_each(F f) {
    for (size_t i : visit_order())
      if (slots_[i]) f(*slots_[i]);
  }
  template <typename F>
  T combine(F f) {
    bool any = false;
    T acc = init_ ? init_() : T();
    for (size_t i : visit_order())
      if (slots_[i]) {
        acc = any ? f(acc, *slots_[i]) : *slots_[i];
        any = true;
      }
    return acc;
  }

 private:
  std::vector<size_t> visit_order() {
    size_t slot = sched::reserve();
    std::vector<size_t> order = sched::permutation(k_);
    std::string rec = "COMB " + std::to_string(k_) + " NLOCAL " + std::to_string(picks_.size());
    for (size_t s : picks_) rec += " " + std::to_string(s);
    rec += " ORDER";
    for (size_t i : order) rec += " " + std::to_string(i);
    sched::fill(slot, rec);
    return order;
  }
  std::function<T()> init_;
  size_t k_;
  std::vector<std::unique_ptr<T>> slots_;
  std::vector<size_t> picks_;
};

template <typename T>
class enumerable_thread_specific {
 public:
  enumerable_thread_specific() = default;
  template <typename Init>
  explicit enumerable_thread_specific(Init init) : init_(init) {}
  T& local() {
    if (!v_) v_.reset(init_ ? new T(init_()) : new T());
    return *v_;
  }
  T* begin() { return v_ ? v_.get() : nullptr; }
  T* end() { return v_ ? v_.get() + 1 : nullptr; }
  size_t size() const { return v_ ? 1 : 0; }
  void clear() { v_.reset(); }

 private:
  std::function<T()> init_;
  std::unique_ptr<T> v_;
};

// ------------------------------------------------------ arenas, task groups
class task_arena {
 public:
  static const int automatic = -1;
  static const int not_initialized = -2;
  task_arena(int max_concurrency = automatic, unsigned = 1) : c_(max_concurrency) {}
  void initialize() {}
  void initialize(int c, unsigned = 1) { c_ = c; }
  void terminate() {}
  bool is_active() const { return true; }
  int max_concurrency() const { return c_ > 0 ? c_ : sched::concurrency; }
  template <typename F>
  auto execute(F&& f) -> decltype(f()) {
    return f();
  }
  template <typename F>
  void enqueue(F&& f) {
    f();
  }

 private:
  int c_;
};
namespace this_task_arena {
inline int max_concurrency() { return sched::concurrency; }
inline int current_thread_index() { return 0; }
template <typename F>
auto isolate(F&& f) -> decltype(f()) {
  return f();
}
}  // namespace this_task_arena

enum task_group_status { not_complete, complete, canceled };
class task_group_context {
 public:
  bool is_group_execution_cancelled() const { return false; }
  bool cancel_group_execution() { return false; }
  void reset() {}
};
class task_group {
 public:
  task_group() = default;
  explicit task_group(task_group_context&) {}
  ~task_group() { drain(); }
  template <typename F>
  void run(F&& f) {
    if (sched::coin())
      pending_.emplace_back(std::forward<F>(f));
    else {
      std::function<void()> g(std::forward<F>(f));
      g();
    }
  }
  template <typename F>
  task_group_status run_and_wait(F&& f) {
    run(std::forward<F>(f));
    return wait();
  }
  task_group_status wait() {
    drain();
    return complete;
  }
  void cancel() {}
  bool is_canceling() { return false; }

 private:
  void drain() {
    while (!pending_.empty()) {
      std::vector<std::function<void()>> batch;
      batch.swap(pending_);
      size_t slot = sched::reserve();
      std::vector<size_t> order = sched::permutation(batch.size());
      std::string rec = "TG " + std::to_string(batch.size()) + " ORDER";
      for (size_t i : order) rec += " " + std::to_string(i);
      sched::fill(slot, rec);
      for (size_t i : order) batch[i]();
    }
  }
  std::vector<std::function<void()>> pending_;
};
inline bool is_current_task_group_canceling() { return false; }

class global_control {
 public:
  enum parameter { max_allowed_parallelism, thread_stack_size, terminate_on_exception };
  global_control(parameter p, size_t v) : p_(p), old_(sched::concurrency) {
    if (p == max_allowed_parallelism && v > 0) sched::concurrency = (int)v;
  }
  ~global_control() {
    if (p_ == max_allowed_parallelism) sched::concurrency = old_;
  }
  static size_t active_value(parameter p) { return p == max_allowed_parallelism ? (size_t)sched::concurrency : 0; }

 private:
  parameter p_;
  int old_;
};
namespace info {
inline int default_concurrency() { return sched::concurrency; }
}  // namespace info

// ---------------------------------------- containers (single-threaded here)
template <typename K, typename V, typename C = std::less<K>, typename A = std::allocator<std::pair<const K, V>>>
using concurrent_map = std::map<K, V, C, A>;
template <typename K, typename V, typename H = std::hash<K>, typename E = std::equal_to<K>,
          typename A = std::allocator<std::pair<const K, V>>>
using concurrent_unordered_map = std::unordered_map<K, V, H, E, A>;

}  // namespace verif_tbb

namespace oneapi {
namespace verif_tbb_alias = ::verif_tbb;
}
#define tbb verif_tbb
#endif  // VERIF_SCHED_H
