"""Common machinery for /verif checks (see DESIGN.md section 1.2).

Every check is a module checks/<ID>.py with a function run(cx) where cx is a
Check object from this file.  The module calls, in order,
  cx.prove(...)        Coq obligations for the property (full .vo build)
  cx.correspond(...)   model-vs-implementation diffs (the checked tie)
  cx.violation(...)    concrete failing inputs found by the oracle/search
  cx.finish()          evidence + verdict line(s) + exit status
Nothing here ever writes to known_findings.txt.
"""
import hashlib, json, os, re, shlex, subprocess, sys, time, glob, shutil

ROOT = os.path.dirname(os.path.dirname(os.path.abspath(__file__)))
REPO = os.environ.get("VERIF_REPO", "/repo")
BUILD = os.path.join(ROOT, "build")          # untracked, rebuilt on demand
COQ = os.path.join(ROOT, "coq")
NPROC = os.cpu_count() or 4
GUARD = "MANIFOLD_VERIF"

BASE_CXX = ["g++", "-std=c++17", "-O1", "-g0", "-ffp-contract=off", "-w",
            "-D" + GUARD, "-I" + os.path.join(REPO, "include"),
            "-I" + os.path.join(REPO, "src"), "-I" + os.path.join(ROOT, "harness")]
VARIANTS = {
    # name: (compile flags, link flags)
    "seq": (["-DMANIFOLD_PAR=-1"], []),
    "par": (["-DMANIFOLD_PAR=1"], ["-ltbb"]),
    "san": (["-DMANIFOLD_PAR=-1", "-fsanitize=address,undefined",
             "-fno-sanitize-recover=all", "-fno-omit-frame-pointer", "-g1"],
            ["-fsanitize=address,undefined"]),
    "tsan": (["-DMANIFOLD_PAR=-1", "-fsanitize=thread", "-g1"], ["-fsanitize=thread"]),
    "sim": (["-DMANIFOLD_PAR=1", "-include", os.path.join(ROOT, "harness", "verif_sched.h")], []),
}


def sh(cmd, timeout=None, cwd=None, env=None, input=None):
    """Run a command; returns (rc, stdout+stderr text). Never raises on rc."""
    if isinstance(cmd, str):
        cmd = ["bash", "-c", cmd]
    e = dict(os.environ)
    if env:
        e.update(env)
    try:
        p = subprocess.run(cmd, cwd=cwd, env=e, input=input, stdout=subprocess.PIPE,
                           stderr=subprocess.STDOUT, timeout=timeout, text=True, errors="replace")
        return p.returncode, p.stdout
    except subprocess.TimeoutExpired as ex:
        out = ex.stdout or ""
        if isinstance(out, bytes):
            out = out.decode(errors="replace")
        return 124, out + "\n[timeout after %ss]" % timeout


def sh2(cmd, timeout=None, cwd=None, env=None, input=None):
    """Like sh but keeps stdout and stderr apart: (rc, out, err)."""
    if isinstance(cmd, str):
        cmd = ["bash", "-c", cmd]
    e = dict(os.environ)
    if env:
        e.update(env)
    try:
        p = subprocess.run(cmd, cwd=cwd, env=e, input=input, stdout=subprocess.PIPE,
                           stderr=subprocess.PIPE, timeout=timeout, text=True, errors="replace")
        return p.returncode, p.stdout, p.stderr
    except subprocess.TimeoutExpired as ex:
        o = ex.stdout or ""
        if isinstance(o, bytes):
            o = o.decode(errors="replace")
        return 124, o, "[timeout after %ss]" % timeout


def file_hash(paths, extra=""):
    h = hashlib.sha256()
    h.update(extra.encode())
    for p in sorted(paths):
        h.update(p.encode())
        try:
            with open(p, "rb") as f:
                h.update(f.read())
        except OSError:
            h.update(b"<missing>")
    return h.hexdigest()[:16]


def repo_sources():
    fs = []
    for pat in ("src/*.cpp", "src/*.h", "include/manifold/*.h", "bindings/c/*.cpp",
                "bindings/c/*.h", "bindings/c/include/manifold/*.h"):
        fs += glob.glob(os.path.join(REPO, pat))
    return sorted(fs)


_repo_hash = None


def repo_hash():
    global _repo_hash
    if _repo_hash is None:
        _repo_hash = file_hash(repo_sources())
    return _repo_hash


def _prune(prefix, keep):
    """Keep the build cache small: drop older siblings of a cache dir."""
    for d in glob.glob(os.path.join(BUILD, prefix + "-*")):
        if d != keep and time.time() - os.path.getmtime(d) > 6 * 3600:
            shutil.rmtree(d, ignore_errors=True)


def build_lib(variant="seq", cbind=False):
    """Compile /repo's current library sources (hooks on) into a static
    archive, cached by content hash.  Returns (archive, cflags, ldflags)."""
    import fcntl
    cf, lf = VARIANTS[variant]
    extra_files = [os.path.join(ROOT, "harness", "verif_sched.h")] if variant == "sim" else []
    key = file_hash(repo_sources() + extra_files, " ".join(BASE_CXX + cf) + str(cbind))
    d = os.path.join(BUILD, "lib-%s%s-%s" % (variant, "-c" if cbind else "", key))
    ar = os.path.join(d, "libmanifold.a")
    os.makedirs(BUILD, exist_ok=True)
    lk = open(os.path.join(BUILD, ".lib-%s%s-%s.lock" % (variant, "-c" if cbind else "", key)), "w")
    fcntl.flock(lk, fcntl.LOCK_EX)     # released when lk is closed / collected
    if not os.path.exists(ar):
        os.makedirs(d, exist_ok=True)
        srcs = sorted(glob.glob(os.path.join(REPO, "src/*.cpp")))
        extra = []
        if cbind:
            srcs += sorted(glob.glob(os.path.join(REPO, "bindings/c/*.cpp")))
            extra = ["-I" + os.path.join(REPO, "bindings/c/include"), "-I" + os.path.join(REPO, "bindings/c")]
        jobs = []
        for s in srcs:
            o = os.path.join(d, os.path.basename(s) + ".o")
            jobs.append(" ".join(shlex.quote(x) for x in BASE_CXX + cf + extra + ["-c", s, "-o", o]))
        rc, out = sh(["xargs", "-P", str(NPROC), "-I", "CMD", "bash", "-c", "CMD"],
                     input="\n".join(jobs) + "\n", timeout=1500)
        if rc != 0:
            shutil.rmtree(d, ignore_errors=True)
            raise BuildError("library build (%s) failed:\n%s" % (variant, out[-4000:]))
        rc, out = sh("ar rcs %s.tmp %s/*.o && mv %s.tmp %s" % (shlex.quote(ar), shlex.quote(d), shlex.quote(ar), shlex.quote(ar)))
        if rc != 0:
            raise BuildError(out)
        _prune("lib-%s%s" % (variant, "-c" if cbind else ""), d)
    os.utime(d)
    lk.close()
    extra = ["-I" + os.path.join(REPO, "bindings/c/include"), "-I" + os.path.join(REPO, "bindings/c")] if cbind else []
    return ar, BASE_CXX[1:] + cf + extra, lf


class BuildError(Exception):
    pass


def build_harness(name, variant="seq", link_lib=True, extra=(), cbind=False, sources=None):
    """Compile harness/<name>.cpp against /repo's working tree. Cached by the
    hash of the harness source, the repo sources and the flags."""
    srcs = sources or [os.path.join(ROOT, "harness", name + ".cpp")]
    hdrs = glob.glob(os.path.join(ROOT, "harness", "*.h"))
    cf, lf = VARIANTS[variant]
    key = file_hash(repo_sources() + srcs + hdrs, variant + " ".join(extra) + str(link_lib) + str(cbind))
    d = os.path.join(BUILD, "h-%s-%s-%s" % (name, variant, key))
    exe = os.path.join(d, name)
    if not os.path.exists(exe):
        os.makedirs(d, exist_ok=True)
        cmd = list(BASE_CXX) + cf + list(extra)
        if cbind:
            cmd += ["-I" + os.path.join(REPO, "bindings/c/include"), "-I" + os.path.join(REPO, "bindings/c")]
        cmd += srcs + ["-o", exe]
        if link_lib:
            ar, _, _ = build_lib(variant, cbind=cbind)
            cmd += [ar]
        cmd += lf + ["-lpthread"]
        rc, out = sh(cmd, timeout=1500)
        if rc != 0:
            shutil.rmtree(d, ignore_errors=True)
            raise BuildError("harness %s (%s) failed to build:\n%s" % (name, variant, out[-6000:]))
        _prune("h-%s-%s" % (name, variant), d)
    os.utime(d)
    return exe


def run_cases(exe, lines, key_of_line, key_of_out, timeout=1800, max_restarts=2, env=None):
    """Feed `lines` (one case per line) to a harness that prints >= 1 output
    line per case.  If the harness dies or hangs, the first case without any
    output is re-run alone to confirm, recorded as a crash, and the run resumes
    after it.  Returns (stdout_text, crashes) with crashes = [(case_line, rc, stderr_tail)]."""
    out_all, crashes = [], []
    todo = list(lines)
    for _ in range(max_restarts + 1):
        if not todo:
            break
        rc, out, err = sh2([exe] if isinstance(exe, str) else exe, input="\n".join(todo) + "\n", timeout=timeout, env=env)
        out_all.append(out)
        if rc == 0:
            break
        done = set(key_of_out(l) for l in out.splitlines())
        done.discard(None)
        idx = next((i for i, l in enumerate(todo) if key_of_line(l) is not None and key_of_line(l) not in done), None)
        if idx is None:
            crashes.append(("<after last case>", rc, err[-600:]))
            break
        rc1, out1, err1 = sh2([exe] if isinstance(exe, str) else exe, input=todo[idx] + "\n", timeout=min(timeout, 30), env=env)
        crashes.append((todo[idx], rc1 if rc1 != 0 else rc, (err1 if rc1 != 0 else err)[-600:]))
        todo = todo[idx + 1:]
    return "".join(out_all), crashes


# ---------------------------------------------------------------- Coq side

def coq_setup():
    """(Re)generate _CoqProject and the Makefile from the files on disk."""
    vs = sorted(os.path.relpath(p, COQ) for p in glob.glob(os.path.join(COQ, "**", "*.v"), recursive=True))
    proj = "-Q . MV\n-arg -w -arg -all\n" + "\n".join(vs) + "\n"
    pp = os.path.join(COQ, "_CoqProject")
    old = open(pp).read() if os.path.exists(pp) else None
    if old != proj or not os.path.exists(os.path.join(COQ, "Makefile")):
        with open(pp, "w") as f:
            f.write(proj)
        rc, out = sh("coq_makefile -f _CoqProject -o Makefile", cwd=COQ)
        if rc != 0:
            raise BuildError(out)
    os.makedirs(os.path.join(BUILD, "ml"), exist_ok=True)


def coq_make(targets, timeout=1500):
    """Full .vo build of the given targets (relative to coq/). -k so that one
    broken proof does not hide the others. Returns (rc, log).  Serialised with
    a file lock so that concurrent checks do not rewrite the Makefile under
    each other."""
    import fcntl
    os.makedirs(BUILD, exist_ok=True)
    with open(os.path.join(BUILD, ".coq.lock"), "w") as lk:
        fcntl.flock(lk, fcntl.LOCK_EX)
        try:
            coq_setup()
            return sh(["make", "-k", "-j%d" % NPROC] + list(targets), cwd=COQ, timeout=timeout)
        finally:
            fcntl.flock(lk, fcntl.LOCK_UN)


FORBIDDEN = re.compile(r"\b(Admitted|admit|Axiom|Parameter|Conjecture|Admit Obligations|"
                       r"Unset Guard Checking|Unset Positivity Checking|Unset Universe Checking|"
                       r"bypass_check|type-in-type|impredicative-set)\b")


def coq_cone(start):
    """Files (under coq/) that `start` (relative .v path) transitively requires
    through `From MV Require ...` lines."""
    seen, todo = set(), [start]
    while todo:
        f = todo.pop()
        if f in seen or not os.path.exists(os.path.join(COQ, f)):
            continue
        seen.add(f)
        txt = re.sub(r"\(\*.*?\*\)", "", open(os.path.join(COQ, f), errors="replace").read(), flags=re.S)
        for m in re.finditer(r"From\s+MV\s+Require\s+(?:Import\s+|Export\s+)?(.*?)\.(?:\s|$)", txt, flags=re.S):
            for mod in m.group(1).split():
                todo.append(mod.replace(".", "/") + ".v")
        for m in re.finditer(r"Require\s+(?:Import\s+|Export\s+)?(.*?)\.(?:\s|$)", txt, flags=re.S):
            for mod in m.group(1).split():
                if mod.startswith("MV."):
                    todo.append(mod[3:].replace(".", "/") + ".v")
    return sorted(seen)


def coq_forbidden_scan(files=None):
    bad = []
    paths = [os.path.join(COQ, f) for f in files] if files else glob.glob(os.path.join(COQ, "**", "*.v"), recursive=True)
    for p in paths:
        txt = re.sub(r"\(\*.*?\*\)", "", open(p, errors="replace").read(), flags=re.S)
        for i, line in enumerate(txt.split("\n")):
            if FORBIDDEN.search(line):
                bad.append("%s:%d:%s" % (os.path.relpath(p, ROOT), i + 1, line.strip()))
    return bad


# axioms we accept in Print Assumptions output (all from the standard library or
# installed libraries; named in DESIGN.md section 5)
ALLOWED_AXIOMS = [
    r"^PrimFloat\.", r"^PrimInt63\.", r"^Uint63\.", r"^FloatAxioms\.", r"^FloatOps\.", r"^Sint63\.",
    r"^Coq\.Floats\.", r"^Coq\.Numbers\.Cyclic\.Int63\.",
    r"functional_extensionality_dep", r"^Classical_Prop\.classic", r"^ClassicalDedekindReals\.",
    r"^Eqdep\.Eq_rect_eq\.eq_rect_eq", r"^ProofIrrelevance\.proof_irrelevance",
    r"^JMeq\.JMeq_eq", r"^Rdefinitions\.", r"^Raxioms\.", r"^ClassicalEpsilon\.",
    r"^ChoiceFacts\.", r"^PropExtensionality\.", r"^Epsilon\.", r"^Rtrigo", r"sig_forall_dec", r"sig_not_dec",
]


def parse_assumptions(log):
    """Parse the output of a Properties_<ID>.v compile. Our property files
    print, for each theorem T, `Print Assumptions T.`; Coq answers either
    'Closed under the global context' or 'Axioms:' + names."""
    closed = len(re.findall(r"Closed under the global context", log))
    axioms = []
    for blk in re.findall(r"Axioms:\n((?:.+\n?)+?)(?=\n\S|\Z)", log):
        for m in re.finditer(r"^([A-Za-z_][\w.']*)\s*:", blk, flags=re.M):
            if m.group(1) != "Axioms":
                axioms.append(m.group(1))
    return closed, sorted(set(axioms))


def coq_extract(name, outputs):
    """Re-run coq/Extract/<name>.v (forces the extraction to be redone from the
    current model) and return the paths of the .ml files it wrote under build/ml."""
    coq_setup()
    for ext in (".vo", ".glob", ".vos", ".vok"):
        try:
            os.remove(os.path.join(COQ, "Extract", name + ext))
        except OSError:
            pass
    for o in outputs:
        for e in ("", "i"):
            try:
                os.remove(os.path.join(BUILD, "ml", o + e))
            except OSError:
                pass
    rc, log = coq_make(["Extract/%s.vo" % name])
    outs = [os.path.join(BUILD, "ml", o) for o in outputs]
    if rc != 0 or not all(os.path.exists(o) for o in outs):
        raise BuildError("extraction %s failed:\n%s" % (name, log[-3000:]))
    return outs


# ---------------------------------------------------------------- OCaml side

def ocaml_build(name, mls, packages=(), flags=()):
    """Compile extracted model + driver(s) to a native executable.  mls are
    paths (extracted files under build/ml, drivers under extract/)."""
    key = file_hash(list(mls), " ".join(packages) + " ".join(flags))
    d = os.path.join(BUILD, "ml-%s-%s" % (name, key))
    exe = os.path.join(d, name)
    if not os.path.exists(exe):
        os.makedirs(d, exist_ok=True)
        local = []
        for m in mls:
            shutil.copy(m, d)
            mli = m[:-3] + ".mli"
            if os.path.exists(mli):
                shutil.copy(mli, d)
                local.append(os.path.basename(mli))
            local.append(os.path.basename(m))
        cmd = ["ocamlfind", "ocamlopt", "-O3" if False else "-unsafe", "-inline", "100", "-w", "-a"]
        cmd = ["ocamlfind", "ocamlopt", "-w", "-a"] + list(flags)
        if packages:
            cmd += ["-package", ",".join(packages), "-linkpkg"]
        cmd += local + ["-o", name]
        rc, out = sh(cmd, cwd=d, timeout=900)
        if rc != 0:
            shutil.rmtree(d, ignore_errors=True)
            raise BuildError("ocaml build %s failed:\n%s" % (name, out[-4000:]))
        _prune("ml-%s" % name, d)
    os.utime(d)
    return exe


# ---------------------------------------------------------------- findings

def known_findings(pid):
    """Lines of known_findings.txt:  'finding: property=<id> key=<key> <text>'
    or 'fixed: property=<id> <commit> <text>' (fixed entries suppress nothing)."""
    out = []
    p = os.path.join(ROOT, "known_findings.txt")
    if os.path.exists(p):
        for line in open(p):
            line = line.strip()
            m = re.match(r"finding:\s+property=(\S+)\s+key=(\S+)\s+(.*)", line)
            if m and m.group(1) == pid:
                out.append((m.group(2), m.group(3)))
    return out


class Check:
    def __init__(self, pid, level, tier="quick", seed=None):
        self.pid, self.level, self.tier = pid, level, tier
        self.seed = int(seed if seed is not None else os.environ.get("VERIF_SEED", "1"))
        self.t0 = time.time()
        self.cov = {"samples": [], "trusted_base": []}
        self.assumptions = []
        self.violations = []     # (key, description, replay object)
        self.broken = []         # (name, description)  proof / correspondence that no longer checks
        self.obligations = 0
        self.discharged = 0
        self.notes = []
        self.replay_mode = None
        os.makedirs(os.path.join(ROOT, "evidence"), exist_ok=True)
        os.makedirs(os.path.join(ROOT, "replays"), exist_ok=True)

    # -- logging
    def log(self, *a):
        print("[%s %6.1fs]" % (self.pid, time.time() - self.t0), *a, flush=True)

    def quick(self):
        return self.tier == "quick"

    def pick(self, q, t):
        return q if self.tier == "quick" else t

    # -- proofs
    def prove(self, extra_targets=(), theorems_file=None, timeout=1500):
        """Build Properties_<ID>.vo (and everything it depends on) from
        scratch for that file, count its theorems and their assumptions."""
        pf = theorems_file or "Properties_%s.v" % self.pid
        cone = coq_cone(pf)
        self.cov["coq_files_in_cone"] = cone
        bad = coq_forbidden_scan(cone)
        if bad:
            self.broken.append(("coq:forbidden", "forbidden construct(s): " + "; ".join(bad[:5])))
        src = open(os.path.join(COQ, pf)).read()
        src_nc = re.sub(r"\(\*.*?\*\)", "", src, flags=re.S)
        thms = re.findall(r"^\s*(?:Theorem|Corollary)\s+([\w']+)", src_nc, flags=re.M)
        vo = pf[:-2] + ".vo"
        # force the property file itself to be re-checked so its Print Assumptions output is fresh
        for ext in (".vo", ".glob", ".vos", ".vok"):
            try:
                os.remove(os.path.join(COQ, pf[:-2] + ext))
            except OSError:
                pass
        rc, log = coq_make([vo] + list(extra_targets), timeout=timeout)
        os.makedirs(os.path.join(BUILD, "logs"), exist_ok=True)
        with open(os.path.join(BUILD, "logs", "coq_%s.log" % self.pid), "w") as f:
            f.write(log)
        closed, axioms = parse_assumptions(log)
        self.obligations += len(thms)
        ok = rc == 0 and os.path.exists(os.path.join(COQ, vo))
        if ok:
            self.discharged += len(thms)
        else:
            errs = re.findall(r'File "([^"]+)", line (\d+).*?\n(Error:.*?)(?=\n\S*make|\nFile|\Z)', log, flags=re.S)
            desc = "; ".join("%s:%s %s" % (os.path.basename(a), b, " ".join(c.split())[:200]) for a, b, c in errs[:4]) or log[-600:]
            self.broken.append(("coq:" + pf[:-2], "proof obligations no longer check: " + desc))
        disallowed = [a for a in axioms if not any(re.search(p, a) for p in ALLOWED_AXIOMS)]
        if disallowed:
            self.broken.append(("coq:axioms", "theorems depend on axioms outside the allow-list: " + ", ".join(disallowed)))
        self.cov["theorems"] = thms
        self.cov["axioms_reported_by_Print_Assumptions"] = axioms
        self.cov["theorems_closed_under_global_context"] = closed
        self.cov["checker_cmd"] = "make -k -j%d %s  (in coq/, full .vo, Coq 8.16.1)" % (NPROC, vo)
        self.cov["trusted_base"] += ["Coq 8.16.1 kernel + vm_compute (no native_compute)"] + ["axiom: " + a for a in axioms]
        self.log("proofs: %d/%d theorems in %s, axioms=%s" % (len(thms) if ok else 0, len(thms), pf, axioms or "none"))
        return ok

    def obligation(self, name, ok, desc=""):
        """A generated-table obligation (e.g. a translator table accepted by a
        proved-sound boolean checker)."""
        self.obligations += 1
        if ok:
            self.discharged += 1
        else:
            self.broken.append((name, desc or "obligation failed"))

    # -- results
    def violation(self, key, desc, replay):
        self.violations.append((key, desc, replay))

    def broke(self, name, desc):
        self.broken.append((name, desc))

    def sample(self, s, cap=6):
        if len(self.cov["samples"]) < cap:
            self.cov["samples"].append(s)

    def write_replay(self, tag, obj):
        p = os.path.join(ROOT, "replays", "%s_%s.json" % (self.pid, re.sub(r"[^\w.-]", "_", tag)[:60]))
        with open(p, "w") as f:
            json.dump(obj, f, indent=1, default=str)
        return p

    def finish(self):
        wall = time.time() - self.t0
        kf = known_findings(self.pid)
        fresh, known_hit = [], {}
        for key, desc, rep in self.violations:
            hit = [k for k, _ in kf if k == key]
            if hit:
                known_hit.setdefault(key, desc)
            else:
                fresh.append((key, desc, rep))
        lines = []
        for k, d in known_hit.items():
            lines.append("KNOWN-FINDING: property=%s %s (%s)" % (self.pid, k, d))
        nviol = 0
        seen = set()
        for key, desc, rep in fresh:
            if key in seen:
                continue
            seen.add(key)
            path = self.write_replay(key, {"property": self.pid, "key": key, "what": desc, "replay": rep,
                                           "seed": self.seed, "tier": self.tier, "repo": REPO})
            lines.append("VIOLATION property=%s replay=%s" % (self.pid, path))
            self.log("violation:", key, "-", desc)
            nviol += 1
        if fresh and self.broken:
            for n, d in self.broken:
                self.log("also no longer checks:", n, "-", d[:300])
        if not fresh and self.broken:
            # a proof obligation or the correspondence no longer checks, and the
            # search found no concrete failing input
            path = self.write_replay("broken", {"property": self.pid, "no_longer_checks": [
                {"name": n, "what": d} for n, d in self.broken], "seed": self.seed, "tier": self.tier,
                "note": "no concrete failing input was found by the search; the property is no longer shown to hold"})
            lines.append("VIOLATION property=%s replay=%s no-failing-input-found" % (self.pid, path))
            for n, d in self.broken:
                self.log("broken:", n, "-", d[:500])
            nviol += 1
        cov = self.cov
        if self.level == "proof" or self.obligations:
            cov["obligations"] = self.obligations
            cov["discharged"] = self.discharged
            cov.setdefault("checker_cmd", "n/a")
        cov["broken"] = [{"name": n, "what": d[:400]} for n, d in self.broken]
        cov["known_findings_reproduced"] = sorted(known_hit)
        ev = {"property_id": self.pid, "tier": self.tier, "seed": self.seed, "level": self.level,
              "coverage": cov, "assumptions": self.assumptions, "wall_s": round(wall, 2), "violations": nviol,
              "repo": REPO, "repo_hash": repo_hash(), "notes": self.notes}
        if REPO == "/repo" or os.environ.get("VERIF_WRITE_EVIDENCE"):
            with open(os.path.join(ROOT, "evidence", self.pid + ".json"), "w") as f:
                json.dump(ev, f, indent=1, default=str)
        for l in lines:
            print(l, flush=True)
        self.log("done in %.1fs: %s" % (wall, "FAIL" if nviol else "ok"))
        return 1 if nviol else 0
